"""Symbolic reference semantics of the NMOS Z80 (written from the Zilog manual, Sean Young's
"The Undocumented Z80 Documented", the MEMPTR and Q/ccf-scf research notes).

execute(group, opc) -> list of variants (name, predicate | None, State)

The State holds, as terms over the initial register symbols, operand bytes op{k}, data reads rd{n} and port
reads io{n}: every architected register, and the ordered list of bus events
    ('R', addr) memory read   ('W', addr, data) memory write   ('IOR', port)   ('IOW', port, data)
Timing is not part of this model (oracle/z80.py).  Flags are computed from arithmetic definitions
(carries from widened sums), not from lookup tables.
"""
import os
import sys

sys.path.insert(0, os.path.dirname(os.path.dirname(os.path.abspath(__file__))))
from zx import term as tm  # noqa: E402
from zx.term import K  # noqa: E402

C_, N_, PV_, X3, H_, X5, Z_, S_ = 1, 2, 4, 8, 16, 32, 64, 128

PARITY_TAB = tuple(PV_ if bin(i).count("1") % 2 == 0 else 0 for i in range(256))


def b8(v):
    return K(v, 8)


def bit(x, n):
    """bit n of x as a 1-bit term"""
    return tm.trunc(tm.binop("lshr", x, K(n, x.bits)), 1)


def flag(cond, mask):
    """mask if cond (1-bit term) else 0, as 8-bit term"""
    return tm.binop("mul", tm.zext(cond, 8), K(mask, 8)) if not cond.is_const() else K(mask if cond.val else 0, 8)


def OR(*xs):
    r = xs[0]
    for x in xs[1:]:
        r = tm.binop("or", r, x)
    return r


def AND(a, m):
    return tm.binop("and", a, K(m, a.bits))


def eqz(x):
    return tm.cmp("eq", x, K(0, x.bits))


def nez(x):
    return tm.cmp("ne", x, K(0, x.bits))


def sz53(x):
    return OR(AND(x, S_ | X5 | X3), flag(eqz(x), Z_))


def parity(x):
    return tm.select(PARITY_TAB, 8, x) if not x.is_const() else K(PARITY_TAB[x.val], 8)


def sz53p(x):
    return OR(sz53(x), parity(x))


PAIRS = {"BC": ("B", "C"), "DE": ("D", "E"), "HL": ("H", "L"), "IX": ("IXH", "IXL"), "IY": ("IYH", "IYL"), "AF": ("A", "F"),
         "BC'": ("B'", "C'"), "DE'": ("D'", "E'"), "HL'": ("H'", "L'"), "AF'": ("A'", "F'")}


class State(object):
    def __init__(self):
        self.r = {}
        for n in ("A", "F", "I", "R", "Q", "LAST_Q", "A'", "F'"):
            self.r[n] = tm.sym(n, 8)
        for p, (h, l) in PAIRS.items():
            if p in ("AF", "AF'"):
                continue
            ps = tm.sym(p, 16)
            self.r[h] = tm.hi8(ps)
            self.r[l] = tm.lo8(ps)
        self.PC = tm.sym("PC", 16)
        self.SP = tm.sym("SP", 16)
        self.MEMPTR = tm.sym("MEMPTR", 16)
        self.IFF1 = tm.sym("IFF1", 1)
        self.IFF2 = tm.sym("IFF2", 1)
        self.halted = None          # None = unchanged
        self.im = None              # None = unchanged
        self.ei_di = False          # interrupts may not be accepted right after
        self.events = []
        self.nrd = 0
        self.nio = 0
        self.pc0 = self.PC
        self.fetched = 0
        self.flags_written = False
        self.m1 = 0
        self.reti = False
        self.pending_prefix = None

    # ---------- register helpers
    def get16(self, p):
        if p == "SP":
            return self.SP
        if p == "PC":
            return self.PC
        hi, lo = PAIRS[p]
        return tm.join16(self.r[hi], self.r[lo])

    def set16(self, p, v):
        if p == "SP":
            self.SP = v
            return
        hi, lo = PAIRS[p]
        self.r[hi] = tm.hi8(v)
        self.r[lo] = tm.lo8(v)

    def setF(self, v):
        self.r["F"] = v
        self.flags_written = True

    # ---------- bus
    def fetch_opcode(self, value):
        """M1 cycle"""
        self.events.append(("R", self.PC))
        self.PC = tm.binop("add", self.PC, K(1, 16))
        self.fetched += 1
        self.m1 += 1
        return value

    def imm8(self):
        v = tm.sym("op%d" % self.fetched, 8)
        self.events.append(("R", self.PC))
        self.PC = tm.binop("add", self.PC, K(1, 16))
        self.fetched += 1
        return v

    def imm16(self):
        lo = self.imm8()
        hi = self.imm8()
        return tm.join16(hi, lo)

    def rd(self, addr):
        v = tm.sym("rd%d" % self.nrd, 8)
        self.nrd += 1
        self.events.append(("R", addr))
        return v

    def wr(self, addr, v):
        self.events.append(("W", addr, v))

    def rd16(self, addr):
        lo = self.rd(addr)
        hi = self.rd(tm.binop("add", addr, K(1, 16)))
        return tm.join16(hi, lo)

    def wr16(self, addr, v):
        self.wr(addr, tm.lo8(v))
        self.wr(tm.binop("add", addr, K(1, 16)), tm.hi8(v))

    def push16(self, v):
        self.SP = tm.binop("sub", self.SP, K(1, 16))
        self.wr(self.SP, tm.hi8(v))
        self.SP = tm.binop("sub", self.SP, K(1, 16))
        self.wr(self.SP, tm.lo8(v))

    def pop16(self):
        lo = self.rd(self.SP)
        self.SP = tm.binop("add", self.SP, K(1, 16))
        hi = self.rd(self.SP)
        self.SP = tm.binop("add", self.SP, K(1, 16))
        return tm.join16(hi, lo)

    def io_in(self, port):
        v = tm.sym("io%d" % self.nio, 8)
        self.nio += 1
        self.events.append(("IOR", port))
        return v

    def io_out(self, port, v):
        self.events.append(("IOW", port, v))

    def carry(self):
        return bit(self.r["F"], 0)


# ------------------------------------------------------------------ ALU

def add8(a, b, cin):
    """returns (result, flags)"""
    w = tm.binop("add", tm.binop("add", tm.zext(a, 16), tm.zext(b, 16)), tm.zext(cin, 16))
    res = tm.trunc(w, 8)
    h = tm.cmp("ult", K(0xF, 8), tm.binop("add", tm.binop("add", AND(a, 0xF), AND(b, 0xF)), tm.zext(cin, 8)))
    v = nez(AND(tm.binop("and", tm.binop("xor", a, tm.unop("not", b)), tm.binop("xor", a, res)), 0x80))
    c = tm.cmp("ult", K(0xFF, 16), w)
    return res, OR(sz53(res), flag(h, H_), flag(v, PV_), flag(c, C_))


def sub8(a, b, cin, xy_from=None):
    w = tm.binop("sub", tm.binop("sub", tm.zext(a, 16), tm.zext(b, 16)), tm.zext(cin, 16))
    res = tm.trunc(w, 8)
    h = tm.cmp("ult", AND(a, 0xF), tm.binop("add", AND(b, 0xF), tm.zext(cin, 8)))
    v = nez(AND(tm.binop("and", tm.binop("xor", a, b), tm.binop("xor", a, res)), 0x80))
    c = tm.cmp("ult", K(0xFF, 16), w)
    base = OR(AND(res, S_), flag(eqz(res), Z_), AND(xy_from if xy_from is not None else res, X5 | X3))
    return res, OR(base, flag(h, H_), flag(v, PV_), K(N_, 8), flag(c, C_))


def alu(st, op, operand):
    a = st.r["A"]
    cy = st.carry()
    zero = tm.FALSE
    if op == 0:
        res, f = add8(a, operand, zero)
    elif op == 1:
        res, f = add8(a, operand, cy)
    elif op == 2:
        res, f = sub8(a, operand, zero)
    elif op == 3:
        res, f = sub8(a, operand, cy)
    elif op == 4:
        res = tm.binop("and", a, operand)
        f = OR(sz53p(res), K(H_, 8))
    elif op == 5:
        res = tm.binop("xor", a, operand)
        f = sz53p(res)
    elif op == 6:
        res = tm.binop("or", a, operand)
        f = sz53p(res)
    else:
        res, f = sub8(a, operand, zero, xy_from=operand)
        st.setF(f)
        return
    st.r["A"] = res
    st.setF(f)


def inc8(st, v):
    res = tm.binop("add", v, b8(1))
    f = OR(AND(st.r["F"], C_), sz53(res), flag(tm.cmp("eq", AND(v, 0xF), b8(0xF)), H_), flag(tm.cmp("eq", v, b8(0x7F)), PV_))
    st.setF(f)
    return res


def dec8(st, v):
    res = tm.binop("sub", v, b8(1))
    f = OR(AND(st.r["F"], C_), sz53(res), flag(eqz(AND(v, 0xF)), H_), flag(tm.cmp("eq", v, b8(0x80)), PV_), K(N_, 8))
    st.setF(f)
    return res


def rot(st, kind, v):
    """CB-page rotate/shift: returns result, sets flags"""
    cy = st.carry()
    if kind == 0:      # RLC
        c = bit(v, 7)
        res = OR(tm.binop("shl", v, b8(1)), tm.zext(c, 8))
    elif kind == 1:    # RRC
        c = bit(v, 0)
        res = OR(tm.binop("lshr", v, b8(1)), tm.binop("shl", tm.zext(c, 8), b8(7)))
    elif kind == 2:    # RL
        c = bit(v, 7)
        res = OR(tm.binop("shl", v, b8(1)), tm.zext(cy, 8))
    elif kind == 3:    # RR
        c = bit(v, 0)
        res = OR(tm.binop("lshr", v, b8(1)), tm.binop("shl", tm.zext(cy, 8), b8(7)))
    elif kind == 4:    # SLA
        c = bit(v, 7)
        res = tm.binop("shl", v, b8(1))
    elif kind == 5:    # SRA
        c = bit(v, 0)
        res = OR(tm.binop("lshr", v, b8(1)), AND(v, 0x80))
    elif kind == 6:    # SLL (undocumented)
        c = bit(v, 7)
        res = OR(tm.binop("shl", v, b8(1)), b8(1))
    else:              # SRL
        c = bit(v, 0)
        res = tm.binop("lshr", v, b8(1))
    st.setF(OR(sz53p(res), flag(c, C_)))
    return res


def bit_flags(st, n, v, xy):
    b = bit(v, n)
    z = tm.unop("not", b)
    f = OR(AND(st.r["F"], C_), K(H_, 8), flag(z, Z_ | PV_), AND(xy, X5 | X3))
    if n == 7:
        f = OR(f, flag(b, S_))
    st.setF(f)


def add16(st, a, b):
    w = tm.binop("add", tm.zext(a, 32), tm.zext(b, 32))
    res = tm.trunc(w, 16)
    h = tm.cmp("ult", K(0xFFF, 16), tm.binop("add", AND(a, 0xFFF), AND(b, 0xFFF)))
    c = tm.cmp("ult", K(0xFFFF, 32), w)
    f = OR(AND(st.r["F"], S_ | Z_ | PV_), AND(tm.hi8(res), X5 | X3), flag(h, H_), flag(c, C_))
    st.setF(f)
    return res


def adc16(st, a, b):
    cy = st.carry()
    w = tm.binop("add", tm.binop("add", tm.zext(a, 32), tm.zext(b, 32)), tm.zext(cy, 32))
    res = tm.trunc(w, 16)
    h = tm.cmp("ult", K(0xFFF, 16), tm.binop("add", tm.binop("add", AND(a, 0xFFF), AND(b, 0xFFF)), tm.zext(cy, 16)))
    c = tm.cmp("ult", K(0xFFFF, 32), w)
    v = nez(AND(tm.binop("and", tm.binop("xor", a, tm.unop("not", b)), tm.binop("xor", a, res)), 0x8000))
    f = OR(AND(tm.hi8(res), S_ | X5 | X3), flag(eqz(res), Z_), flag(h, H_), flag(v, PV_), flag(c, C_))
    st.setF(f)
    return res


def sbc16(st, a, b):
    cy = st.carry()
    w = tm.binop("sub", tm.binop("sub", tm.zext(a, 32), tm.zext(b, 32)), tm.zext(cy, 32))
    res = tm.trunc(w, 16)
    # borrow out of bit 11: bit 12 of the 12-bit operands' difference
    h = nez(AND(tm.binop("sub", tm.binop("sub", AND(a, 0xFFF), AND(b, 0xFFF)), tm.zext(cy, 16)), 0x1000))
    c = tm.cmp("ult", K(0xFFFF, 32), w)
    v = nez(AND(tm.binop("and", tm.binop("xor", a, b), tm.binop("xor", a, res)), 0x8000))
    f = OR(AND(tm.hi8(res), S_ | X5 | X3), flag(eqz(res), Z_), flag(h, H_), flag(v, PV_), K(N_, 8), flag(c, C_))
    st.setF(f)
    return res


def daa(st):
    a, f = st.r["A"], st.r["F"]
    n = bit(f, 1)
    hf = bit(f, 4)
    cf = bit(f, 0)
    lo = AND(a, 0x0F)
    low_adj = tm.binop("or", hf, tm.cmp("ult", b8(9), lo))
    hi_adj = tm.binop("or", cf, tm.cmp("ult", b8(0x99), a))
    corr = OR(flag(low_adj, 0x06), flag(hi_adj, 0x60))
    res = tm.ite(n, tm.binop("sub", a, corr), tm.binop("add", a, corr))
    # half carry: add: low nibble > 9 ; sub: H && low nibble < 6
    h_add = tm.cmp("ult", b8(9), lo)
    h_sub = tm.binop("and", hf, tm.cmp("ult", lo, b8(6)))
    h = tm.ite(n, h_sub, h_add)
    st.r["A"] = res
    st.setF(OR(sz53p(res), flag(h, H_), AND(f, N_), flag(hi_adj, C_)))


CC = [(Z_, 0), (Z_, 1), (C_, 0), (C_, 1), (PV_, 0), (PV_, 1), (S_, 0), (S_, 1)]


def cc_term(f, i):
    m, want = CC[i]
    t = nez(AND(f, m))
    return t if want else tm.unop("not", t)


R8 = ["B", "C", "D", "E", "H", "L", None, "A"]


def subst_index(name, ii):
    """register name under a DD/FD prefix"""
    if ii is None:
        return name
    if name == "H":
        return ii + "H"
    if name == "L":
        return ii + "L"
    if name == "HL":
        return ii
    return name


def finish(st, m1, flags_q=True):
    """R increments and the Q latch"""
    r = st.r["R"]
    if not getattr(st, "set_r", False):
        st.r["R"] = OR(AND(tm.binop("add", r, b8(m1)), 0x7F), AND(r, 0x80))
    st.r["LAST_Q"] = tm.sym("Q", 8)
    st.r["Q"] = st.r["F"] if (st.flags_written and flags_q) else b8(0)
    return st


def variants_cond(make, pred_of):
    """make(taken) -> State ; pred_of() -> 1-bit term true when taken"""
    out = []
    for taken in (False, True):
        st = make(taken)
        p = pred_of(st) if callable(pred_of) else pred_of
        out.append(("taken" if taken else "not-taken", (lambda env, p=p, t=taken: p if t else tm.unop("not", p)), st))
    return out


def main_page(opc, ii):
    """ii: None | 'IX' | 'IY'"""
    x, y, z = opc >> 6, (opc >> 3) & 7, opc & 7
    p, q = y >> 1, y & 1
    m1 = 1 if ii is None else 2
    hlname = ii or "HL"

    def new():
        st = State()
        if ii is not None:
            st.fetch_opcode(0xDD if ii == "IX" else 0xFD)
        st.fetch_opcode(opc)
        return st

    def mem_addr(st):
        if ii is None:
            return st.get16("HL")
        d = st.imm8()
        a = tm.binop("add", st.get16(ii), tm.sext(d, 16))
        st.MEMPTR = a
        return a

    def r8name(i, with_mem):
        """register operand i; H/L are substituted only when the instruction has no memory operand"""
        n = R8[i]
        if n in ("H", "L") and not with_mem:
            return subst_index(n, ii)
        return n
    rp = ["BC", "DE", hlname, "SP"]
    rp2 = ["BC", "DE", hlname, "AF"]

    def single(st, q_flags=True):
        return [("-", None, finish(st, m1, q_flags))]
    if x == 0:
        if z == 0:
            if y == 0:
                return single(new())
            if y == 1:
                st = new()
                for a in ("A", "F"):
                    st.r[a], st.r[a + "'"] = st.r[a + "'"], st.r[a]
                return single(st, q_flags=False)
            if y == 2:
                def mk(taken):
                    st = new()
                    d = st.imm8()
                    st.r["B"] = tm.binop("sub", st.r["B"], b8(1))
                    if taken:
                        st.PC = tm.binop("add", st.PC, tm.sext(d, 16))
                        st.MEMPTR = st.PC
                    return finish(st, m1)
                return variants_cond(mk, lambda st: nez(st.r["B"]))
            if y == 3:
                st = new()
                d = st.imm8()
                st.PC = tm.binop("add", st.PC, tm.sext(d, 16))
                st.MEMPTR = st.PC
                return single(st)

            def mk(taken):
                st = new()
                d = st.imm8()
                if taken:
                    st.PC = tm.binop("add", st.PC, tm.sext(d, 16))
                    st.MEMPTR = st.PC
                return finish(st, m1)
            f0 = tm.sym("F", 8)
            return variants_cond(mk, cc_term(f0, y - 4))
        if z == 1:
            st = new()
            if q == 0:
                st.set16(rp[p], st.imm16())
                return single(st)
            a = st.get16(hlname)
            st.MEMPTR = tm.binop("add", a, K(1, 16))
            st.set16(hlname, add16(st, a, st.get16(rp[p])))
            return single(st)
        if z == 2:
            st = new()
            if p < 2:
                addr = st.get16("BC" if p == 0 else "DE")
                if q == 0:
                    st.wr(addr, st.r["A"])
                    st.MEMPTR = tm.join16(st.r["A"], tm.lo8(tm.binop("add", addr, K(1, 16))))
                else:
                    st.r["A"] = st.rd(addr)
                    st.MEMPTR = tm.binop("add", addr, K(1, 16))
                return single(st)
            nn = st.imm16()
            if p == 2:
                if q == 0:
                    st.wr16(nn, st.get16(hlname))
                else:
                    st.set16(hlname, st.rd16(nn))
                st.MEMPTR = tm.binop("add", nn, K(1, 16))
                return single(st)
            if q == 0:
                st.wr(nn, st.r["A"])
                st.MEMPTR = tm.join16(st.r["A"], tm.lo8(tm.binop("add", nn, K(1, 16))))
            else:
                st.r["A"] = st.rd(nn)
                st.MEMPTR = tm.binop("add", nn, K(1, 16))
            return single(st)
        if z == 3:
            st = new()
            v = st.get16(rp[p])
            st.set16(rp[p], tm.binop("add" if q == 0 else "sub", v, K(1, 16)))
            return single(st)
        if z in (4, 5):
            st = new()
            f = inc8 if z == 4 else dec8
            if y == 6:
                a = mem_addr(st)
                v = st.rd(a)
                st.wr(a, f(st, v))
            else:
                n = r8name(y, False)
                st.r[n] = f(st, st.r[n])
            return single(st)
        if z == 6:
            st = new()
            if y == 6:
                a = mem_addr(st)
                v = st.imm8()
                st.wr(a, v)
            else:
                st.r[r8name(y, False)] = st.imm8()
            return single(st)
        # z == 7
        st = new()
        a, f = st.r["A"], st.r["F"]
        if y < 4:
            cy = st.carry()
            if y == 0:
                c = bit(a, 7)
                res = OR(tm.binop("shl", a, b8(1)), tm.zext(c, 8))
            elif y == 1:
                c = bit(a, 0)
                res = OR(tm.binop("lshr", a, b8(1)), tm.binop("shl", tm.zext(c, 8), b8(7)))
            elif y == 2:
                c = bit(a, 7)
                res = OR(tm.binop("shl", a, b8(1)), tm.zext(cy, 8))
            else:
                c = bit(a, 0)
                res = OR(tm.binop("lshr", a, b8(1)), tm.binop("shl", tm.zext(cy, 8), b8(7)))
            st.r["A"] = res
            st.setF(OR(AND(f, S_ | Z_ | PV_), AND(res, X5 | X3), flag(c, C_)))
        elif y == 4:
            daa(st)
        elif y == 5:
            res = tm.unop("not", a)
            st.r["A"] = res
            st.setF(OR(AND(f, S_ | Z_ | PV_ | C_), AND(res, X5 | X3), K(H_ | N_, 8)))
        else:
            qx = tm.binop("or", tm.binop("xor", tm.sym("Q", 8), f), a)
            if y == 6:
                st.setF(OR(AND(f, S_ | Z_ | PV_), AND(qx, X5 | X3), K(C_, 8)))
            else:
                cy = st.carry()
                st.setF(OR(AND(f, S_ | Z_ | PV_), AND(qx, X5 | X3), flag(cy, H_), flag(tm.unop("not", cy), C_)))
        return single(st)
    if x == 1:
        st = new()
        if y == 6 and z == 6:
            st.halted = True
            st.PC = tm.binop("sub", st.PC, K(1, 16))
            return single(st)
        if z == 6:
            a = mem_addr(st)
            st.r[R8[y]] = st.rd(a)
            return single(st)
        if y == 6:
            a = mem_addr(st)
            st.wr(a, st.r[R8[z]])
            return single(st)
        st.r[r8name(y, False)] = st.r[r8name(z, False)]
        return single(st)
    if x == 2:
        st = new()
        if z == 6:
            a = mem_addr(st)
            v = st.rd(a)
        else:
            v = st.r[r8name(z, False)]
        alu(st, y, v)
        return single(st)
    # x == 3
    f0 = tm.sym("F", 8)
    if z == 0:
        def mk(taken):
            st = new()
            if taken:
                st.PC = st.pop16()
                st.MEMPTR = st.PC
            return finish(st, m1)
        return variants_cond(mk, cc_term(f0, y))
    if z == 1:
        st = new()
        if q == 0:
            v = st.pop16()
            st.set16(rp2[p], v)
            return single(st, q_flags=False)
        if p == 0:
            st.PC = st.pop16()
            st.MEMPTR = st.PC
        elif p == 1:
            for a in ("B", "C", "D", "E", "H", "L"):
                st.r[a], st.r[a + "'"] = st.r[a + "'"], st.r[a]
        elif p == 2:
            st.PC = st.get16(hlname)
        else:
            st.SP = st.get16(hlname)
        return single(st)
    if z == 2:
        def mk(taken):
            st = new()
            nn = st.imm16()
            st.MEMPTR = nn
            if taken:
                st.PC = nn
            return finish(st, m1)
        return variants_cond(mk, cc_term(f0, y))
    if z == 3:
        st = new()
        if y == 0:
            nn = st.imm16()
            st.PC = nn
            st.MEMPTR = nn
        elif y == 2:
            n = st.imm8()
            port = tm.join16(st.r["A"], n)
            st.io_out(port, st.r["A"])
            st.MEMPTR = tm.join16(st.r["A"], tm.binop("add", n, b8(1)))
        elif y == 3:
            n = st.imm8()
            port = tm.join16(st.r["A"], n)
            st.MEMPTR = tm.binop("add", port, K(1, 16))
            st.r["A"] = st.io_in(port)
        elif y == 4:
            v = st.rd16(st.SP)
            old = st.get16(hlname)
            st.wr(tm.binop("add", st.SP, K(1, 16)), tm.hi8(old))
            st.wr(st.SP, tm.lo8(old))
            st.set16(hlname, v)
            st.MEMPTR = v
        elif y == 5:
            for a, b in (("D", "H"), ("E", "L")):
                st.r[a], st.r[b] = st.r[b], st.r[a]
        elif y == 6:
            st.IFF1 = st.IFF2 = tm.FALSE
            st.ei_di = True
        elif y == 7:
            st.IFF1 = st.IFF2 = tm.TRUE
            st.ei_di = True
        else:
            return None
        return single(st)
    if z == 4:
        def mk(taken):
            st = new()
            nn = st.imm16()
            st.MEMPTR = nn
            if taken:
                st.push16(st.PC)
                st.PC = nn
            return finish(st, m1)
        return variants_cond(mk, cc_term(f0, y))
    if z == 5:
        st = new()
        if q == 0:
            st.push16(st.get16(rp2[p]))
            return single(st)
        if p == 0:
            nn = st.imm16()
            st.MEMPTR = nn
            st.push16(st.PC)
            st.PC = nn
            return single(st)
        return None
    if z == 6:
        st = new()
        alu(st, y, st.imm8())
        return single(st)
    st = new()
    st.push16(st.PC)
    st.PC = K(y * 8, 16)
    st.MEMPTR = st.PC
    return single(st)


def cb_page(opc, ii):
    x, y, z = opc >> 6, (opc >> 3) & 7, opc & 7
    st = State()
    if ii is None:
        st.fetch_opcode(0xCB)
        st.fetch_opcode(opc)
        m1 = 2
        if z == 6:
            a = st.get16("HL")
            v = st.rd(a)
            xy = tm.hi8(st.MEMPTR)
        else:
            v = st.r[R8[z]]
            xy = v
            a = None
    else:
        st.fetch_opcode(0xDD if ii == "IX" else 0xFD)
        st.fetch_opcode(0xCB)
        d = st.imm8()
        # the final opcode byte is read as data, not an M1 cycle
        st.events.append(("R", st.PC))
        st.PC = tm.binop("add", st.PC, K(1, 16))
        st.fetched += 1
        m1 = 2
        a = tm.binop("add", st.get16(ii), tm.sext(d, 16))
        st.MEMPTR = a
        v = st.rd(a)
        xy = tm.hi8(a)
    if x == 1:
        bit_flags(st, y, v, xy)
        return [("-", None, finish(st, m1))]
    if x == 0:
        res = rot(st, y, v)
    elif x == 2:
        res = AND(v, ~(1 << y) & 0xFF)
    else:
        res = OR(v, b8(1 << y))
    if a is not None:
        st.wr(a, res)
        if ii is not None and z != 6:
            st.r[R8[z]] = res   # undocumented copy to register
    else:
        st.r[R8[z]] = res
    return [("-", None, finish(st, m1))]


def ed_page(opc):
    x, y, z = opc >> 6, (opc >> 3) & 7, opc & 7
    p, q = y >> 1, y & 1
    rp = ["BC", "DE", "HL", "SP"]

    def new():
        st = State()
        st.fetch_opcode(0xED)
        st.fetch_opcode(opc)
        return st

    def single(st, q_flags=True):
        return [("-", None, finish(st, 2, q_flags))]
    if x == 1:
        st = new()
        if z == 0:
            bc = st.get16("BC")
            v = st.io_in(bc)
            st.MEMPTR = tm.binop("add", bc, K(1, 16))
            if y != 6:
                st.r[R8[y]] = v
            st.setF(OR(AND(st.r["F"], C_), sz53p(v)))
            return single(st)
        if z == 1:
            bc = st.get16("BC")
            st.io_out(bc, st.r[R8[y]] if y != 6 else b8(0))
            st.MEMPTR = tm.binop("add", bc, K(1, 16))
            return single(st)
        if z == 2:
            a = st.get16("HL")
            st.MEMPTR = tm.binop("add", a, K(1, 16))
            st.set16("HL", (sbc16 if q == 0 else adc16)(st, a, st.get16(rp[p])))
            return single(st)
        if z == 3:
            nn = st.imm16()
            if q == 0:
                st.wr16(nn, st.get16(rp[p]))
            else:
                st.set16(rp[p], st.rd16(nn))
            st.MEMPTR = tm.binop("add", nn, K(1, 16))
            return single(st)
        if z == 4:
            a = st.r["A"]
            res, f = sub8(b8(0), a, tm.FALSE)
            st.r["A"] = res
            st.setF(f)
            return single(st)
        if z == 5:
            st.IFF1 = st.IFF2
            st.PC = st.pop16()
            st.MEMPTR = st.PC
            st.reti = (y == 1)
            return single(st)
        if z == 6:
            st.im = [0, 0, 1, 2, 0, 0, 1, 2][y]
            return single(st)
        # z == 7
        if y == 0:
            st.r["I"] = st.r["A"]
        elif y == 1:
            st.r["R"] = st.r["A"]
            st.set_r = True
        elif y in (2, 3):
            v = st.r["I"] if y == 2 else None
            if y == 3:
                r = st.r["R"]
                v = OR(AND(tm.binop("add", r, b8(2)), 0x7F), AND(r, 0x80))
            st.r["A"] = v
            st.setF(OR(AND(st.r["F"], C_), sz53(v), flag(st.IFF2, PV_)))
        elif y in (4, 5):
            hl = st.get16("HL")
            m = st.rd(hl)
            a = st.r["A"]
            if y == 4:   # RRD
                newm = OR(tm.binop("shl", a, b8(4)), tm.binop("lshr", m, b8(4)))
                newa = OR(AND(a, 0xF0), AND(m, 0x0F))
            else:        # RLD
                newm = OR(tm.binop("shl", m, b8(4)), AND(a, 0x0F))
                newa = OR(AND(a, 0xF0), tm.binop("lshr", m, b8(4)))
            st.wr(hl, newm)
            st.r["A"] = newa
            st.MEMPTR = tm.binop("add", hl, K(1, 16))
            st.setF(OR(AND(st.r["F"], C_), sz53p(newa)))
        return single(st)
    if x == 2 and z <= 3 and y >= 4:
        return block(opc, y, z)
    return single(new())


def block(opc, y, z):
    inc = (y & 1) == 0
    rep = y >= 6
    step = 1 if inc else -1

    def new():
        st = State()
        st.fetch_opcode(0xED)
        st.fetch_opcode(opc)
        return st

    def body(st):
        hl, de, bc = st.get16("HL"), st.get16("DE"), st.get16("BC")
        a, f = st.r["A"], st.r["F"]
        if z == 0:    # LDI / LDD
            v = st.rd(hl)
            st.wr(de, v)
            st.set16("HL", tm.binop("add", hl, K(step, 16)))
            st.set16("DE", tm.binop("add", de, K(step, 16)))
            bc2 = tm.binop("sub", bc, K(1, 16))
            st.set16("BC", bc2)
            n = tm.binop("add", a, v)
            st.setF(OR(AND(f, S_ | Z_ | C_), flag(nez(bc2), PV_), AND(n, X3), flag(bit(n, 1), X5)))
            return nez(bc2)
        if z == 1:    # CPI / CPD
            v = st.rd(hl)
            res = tm.binop("sub", a, v)
            h = tm.cmp("ult", AND(a, 0xF), AND(v, 0xF))
            st.set16("HL", tm.binop("add", hl, K(step, 16)))
            bc2 = tm.binop("sub", bc, K(1, 16))
            st.set16("BC", bc2)
            n = tm.binop("sub", res, tm.zext(h, 8))
            st.setF(OR(AND(f, C_), AND(res, S_), flag(eqz(res), Z_), flag(h, H_), flag(nez(bc2), PV_), K(N_, 8), AND(n, X3), flag(bit(n, 1), X5)))
            st.MEMPTR = tm.binop("add", st.MEMPTR, K(step, 16))
            return tm.binop("and", nez(bc2), nez(res))
        b2 = tm.binop("sub", st.r["B"], b8(1))
        if z == 2:    # INI / IND
            v = st.io_in(bc)
            st.wr(hl, v)
            st.MEMPTR = tm.binop("add", bc, K(step, 16))
            st.r["B"] = b2
            st.set16("HL", tm.binop("add", hl, K(step, 16)))
            k = tm.binop("add", tm.zext(v, 16), tm.zext(tm.binop("add", st.r["C"], b8(step)), 16))
        else:         # OUTI / OUTD
            v = st.rd(hl)
            st.r["B"] = b2
            bc_after = st.get16("BC")
            st.io_out(bc_after, v)
            st.set16("HL", tm.binop("add", hl, K(step, 16)))
            st.MEMPTR = tm.binop("add", bc_after, K(step, 16))
            k = tm.binop("add", tm.zext(v, 16), tm.zext(st.r["L"], 16))
        kc = tm.cmp("ult", K(0xFF, 16), k)
        pv = parity(tm.binop("xor", AND(tm.trunc(k, 8), 7), b2))
        st.setF(OR(sz53(b2), flag(bit(v, 7), N_), flag(kc, H_ | C_), pv))
        return nez(b2)
    if not rep:
        st = new()
        body(st)
        return [("-", None, finish(st, 2))]
    out = []
    for taken in (False, True):
        st = new()
        cond = body(st)
        if taken:
            st.PC = tm.binop("sub", st.PC, K(2, 16))
            if z in (0, 1):
                st.MEMPTR = tm.binop("add", st.PC, K(1, 16))
            # flags of an iteration that will be repeated (the instruction is "interrupted" by its own re-fetch):
            # bits 5/3 come from the high byte of PC (the instruction's own address after PC -= 2); the I/O forms
            # additionally re-derive H and P/V from B, the carry and bit 7 of the transferred byte
            f1 = st.r["F"]
            pch = AND(tm.hi8(st.PC), X5 | X3)
            if z in (0, 1):
                st.setF(OR(AND(f1, 0xFF & ~(X5 | X3)), pch))
            else:
                b = st.r["B"]
                cf = bit(f1, 0)
                nf = bit(f1, 1)          # N = bit 7 of the byte moved
                pbase = AND(f1, PV_)
                inv = K(PV_, 8)
                p_cf_n = tm.binop("xor", tm.binop("xor", pbase, parity(AND(tm.binop("sub", b, b8(1)), 7))), inv)
                p_cf_p = tm.binop("xor", tm.binop("xor", pbase, parity(AND(tm.binop("add", b, b8(1)), 7))), inv)
                p_nc = tm.binop("xor", tm.binop("xor", pbase, parity(AND(b, 7))), inv)
                h_cf_n = flag(eqz(AND(b, 0x0F)), H_)
                h_cf_p = flag(tm.cmp("eq", AND(b, 0x0F), b8(0x0F)), H_)
                h_nc = AND(f1, H_)
                pv = tm.ite(cf, tm.ite(nf, p_cf_n, p_cf_p), p_nc)
                hh = tm.ite(cf, tm.ite(nf, h_cf_n, h_cf_p), h_nc)
                st.setF(OR(AND(f1, 0xFF & ~(X5 | X3 | H_ | PV_)), pch, hh, pv))
        out.append(("repeat" if taken else "stop", (lambda env, c=cond, t=taken: c if t else tm.unop("not", c)), finish(st, 2)))
    return out


def execute(group, opc):
    if group == "main":
        return main_page(opc, None)
    if group == "dd":
        return main_page(opc, "IX") if opc not in (0xCB, 0xDD, 0xED, 0xFD) else None
    if group == "fd":
        return main_page(opc, "IY") if opc not in (0xCB, 0xDD, 0xED, 0xFD) else None
    if group == "cb":
        return cb_page(opc, None)
    if group == "ddcb":
        return cb_page(opc, "IX")
    if group == "fdcb":
        return cb_page(opc, "IY")
    if group == "ed":
        return ed_page(opc)
    raise KeyError(group)
